(* Soundness of the bisimulation checker, and basic facts about behavioural equivalence. *)
From ES Require Import Base Ssb.Param Ssb.Cfg Ssb.Equiv.

Lemma pp_eqb_spec p q : pp_eqb p q = true <-> p = q.
Proof.
  destruct p as [a b], q as [c d]; unfold pp_eqb; simpl.
  rewrite andb_true_iff, !Nat.eqb_eq. split; [intros [? ?]; congruence | intro E; inversion E; auto].
Qed.

Lemma pp_mem_In p l : pp_mem p l = true <-> In p l.
Proof.
  unfold pp_mem. rewrite existsb_exists. split.
  - intros [x [Hin E]]. apply pp_eqb_spec in E. subst; exact Hin.
  - intro H. exists p. split; [exact H | apply pp_eqb_spec; reflexivity].
Qed.

(* A set of pairs is closed when every member has matching observations whose successor pairs
   are members again: a bisimulation. *)
Definition closed_set (g1 g2 : cfg) (R : pp -> Prop) : Prop :=
  forall p, R p -> exists ss, succs (observe g1 (fst p)) (observe g2 (snd p)) = Some ss /\
                              forall q, In q ss -> R q.

Lemma closed_set_beh g1 g2 R :
  closed_set g1 g2 R -> forall k a b, R (a, b) -> beh_n k g1 g2 a b.
Proof.
  intros HC k. induction k as [|k IH]; intros a b HR; simpl; [exact I|].
  destruct (HC _ HR) as [ss [Hs Hin]]. simpl in Hs.
  destruct (observe g1 a) as [| | |e1 a'|e1 t1 f1], (observe g2 b) as [| | |e2 b'|e2 t2 f2];
    simpl in Hs; try discriminate; try exact I.
  - destruct (event_eqb e1 e2) eqn:E; [|discriminate]. apply event_eqb_spec in E.
    inversion Hs; subst ss. split; [exact E|]. apply IH, Hin. left; reflexivity.
  - destruct (event_eqb e1 e2) eqn:E; [|discriminate]. apply event_eqb_spec in E.
    inversion Hs; subst ss. split; [exact E|]. split; apply IH, Hin.
    + left; reflexivity.
    + right; left; reflexivity.
Qed.

(* Invariant of the work-list loop. *)
Definition inv (g1 g2 : cfg) (todo visited : list pp) : Prop :=
  forall p, In p visited ->
    exists ss, succs (observe g1 (fst p)) (observe g2 (snd p)) = Some ss /\
               forall q, In q ss -> In q visited \/ In q todo.

Lemma explore_sound fuel g1 g2 :
  forall todo visited res,
    inv g1 g2 todo visited ->
    explore fuel g1 g2 todo visited = EqOk res ->
    closed_set g1 g2 (fun p => In p res) /\
    (forall p, In p visited \/ In p todo -> In p res).
Proof.
  induction fuel as [|f IH]; intros todo visited res Hinv Hrun; simpl in Hrun; [discriminate|].
  destruct todo as [|p todo'].
  - inversion Hrun; subst res. split.
    + intros p Hp. destruct (Hinv p Hp) as [ss [Hs Hq]]. exists ss. split; [exact Hs|].
      intros q Hin. destruct (Hq q Hin) as [H|H]; [exact H | destruct H].
    + intros p [H|H]; [exact H | destruct H].
  - destruct (pp_mem p visited) eqn:Hm.
    + apply pp_mem_In in Hm.
      assert (Hinv' : inv g1 g2 todo' visited).
      { intros x Hx. destruct (Hinv x Hx) as [ss [Hs Hq]]. exists ss. split; [exact Hs|].
        intros q Hin. destruct (Hq q Hin) as [H|[H|H]]; auto. subst q. left; exact Hm. }
      destruct (IH _ _ _ Hinv' Hrun) as [HC HS]. split; [exact HC|].
      intros x [Hx|[Hx|Hx]]; [apply HS; auto | subst x; apply HS; auto | apply HS; auto].
    + destruct (succs (observe g1 (fst p)) (observe g2 (snd p))) as [ss|] eqn:Hs; [|discriminate].
      assert (Hinv' : inv g1 g2 (ss ++ todo') (p :: visited)).
      { intros x [Hx|Hx].
        - subst x. exists ss. split; [exact Hs|]. intros q Hin. right. apply in_or_app; auto.
        - destruct (Hinv x Hx) as [ss' [Hs' Hq]]. exists ss'. split; [exact Hs'|].
          intros q Hin. destruct (Hq q Hin) as [H|[H|H]].
          + left; right; exact H.
          + subst q. left; left; reflexivity.
          + right. apply in_or_app; auto. }
      destruct (IH _ _ _ Hinv' Hrun) as [HC HS]. split; [exact HC|].
      intros x [Hx|[Hx|Hx]].
      * apply HS. left; right; exact Hx.
      * subst x. apply HS. left; left; reflexivity.
      * apply HS. right. apply in_or_app; auto.
Qed.

Theorem equiv_check_sound g1 g2 entries :
  equiv_check g1 g2 entries = true ->
  forall a b, In (a, b) entries -> beh_eq g1 g2 a b.
Proof.
  unfold equiv_check, equiv_run. intros H a b Hin k.
  destruct (explore (equiv_fuel g1 g2 entries) g1 g2 entries []) as [res| |] eqn:Hrun; try discriminate.
  assert (Hinv : inv g1 g2 entries []) by (intros p []).
  destruct (explore_sound _ _ _ _ _ _ Hinv Hrun) as [HC HS].
  apply (closed_set_beh g1 g2 _ HC). apply HS. right; exact Hin.
Qed.

(* beh_eq is an equivalence relation (on programs whose behaviour is defined). *)
Lemma beh_n_sym k : forall g1 g2 a b, beh_n k g1 g2 a b -> beh_n k g2 g1 b a.
Proof.
  induction k as [|k IH]; intros g1 g2 a b H; simpl in *; [exact I|].
  destruct (observe g1 a), (observe g2 b); try exact H; try contradiction.
  - destruct H as [E H]. split; [symmetry; exact E | apply IH; exact H].
  - destruct H as [E [H1 H2]]. split; [symmetry; exact E|]. split; apply IH; assumption.
Qed.

Lemma beh_n_trans k : forall g1 g2 g3 a b c,
  beh_n k g1 g2 a b -> beh_n k g2 g3 b c -> beh_n k g1 g3 a c.
Proof.
  induction k as [|k IH]; intros g1 g2 g3 a b c H1 H2; simpl in *; [exact I|].
  destruct (observe g1 a), (observe g2 b), (observe g3 c); try contradiction; try exact I.
  - destruct H1 as [E1 H1], H2 as [E2 H2]. split; [congruence | eapply IH; eassumption].
  - destruct H1 as [E1 [H1 H1']], H2 as [E2 [H2 H2']]. split; [congruence|].
    split; eapply IH; eassumption.
Qed.

Theorem beh_eq_sym g1 g2 a b : beh_eq g1 g2 a b -> beh_eq g2 g1 b a.
Proof. intros H k. apply beh_n_sym, H. Qed.

Theorem beh_eq_trans g1 g2 g3 a b c : beh_eq g1 g2 a b -> beh_eq g2 g3 b c -> beh_eq g1 g3 a c.
Proof. intros H1 H2 k. eapply beh_n_trans; [apply H1 | apply H2]. Qed.

(* Equivalent program points perform the same sequence of operations and tests under every
   oracle, to every length. *)
Theorem beh_eq_traces g1 g2 a b :
  beh_eq g1 g2 a b -> forall steps orc i, trace steps orc i g1 a = trace steps orc i g2 b.
Proof.
  intros H steps. specialize (H steps). revert a b H.
  induction steps as [|s IH]; intros a b H orc i; simpl in *; [reflexivity|].
  destruct (observe g1 a), (observe g2 b); try contradiction; try reflexivity.
  - destruct H as [E H]. subst. f_equal. apply IH, H.
  - destruct H as [E [Ht Hf]]. subst. f_equal. destruct (orc i); apply IH; assumption.
Qed.

(* Non-vacuity: a two-node loop is equivalent to its unrolling. *)
Example equiv_example :
  let e : event := ("op"%string, [PInt 1]) in
  let g1 := [NOp e 0] in
  let g2 := [NOp e 1; NGoto 2; NOp e 0] in
  equiv_check g1 g2 [(0, 0)] = true.
Proof. vm_compute. reflexivity. Qed.
