(* Silent moves: what [observe] returns, stated without fuel, and a proof principle for behavioural
   equivalence of graphs that differ in silent nodes (labels, removed jumps). *)
From ES Require Import Base Ssb.Param Ssb.Cfg Ssb.Equiv Ssb.EquivSound.

(* a -> ... -> b by silent moves; [p] = the goto nodes passed *)
Inductive chain (g : cfg) : nat -> nat -> list nat -> Prop :=
| ch_nil a : chain g a a []
| ch_step a m b p : nth_error g a = Some (NGoto m) -> chain g m b p -> chain g a b (a :: p).

Definition terminal (g : cfg) (b : nat) : Prop :=
  match nth_error g b with Some (NGoto _) => False | _ => True end.

Definition obs_at (g : cfg) (b : nat) : obs :=
  match nth_error g b with
  | None | Some NStuck => OStuck
  | Some NStop => OStop
  | Some (NOp e n) => OEv e n
  | Some (NTest e t f) => OTst e t f
  | Some (NGoto _) => OFuel
  end.

Lemma next_obs_chain g a b p : chain g a b p -> terminal g b ->
  forall fuel, length p < fuel -> next_obs fuel g a = obs_at g b.
Proof.
  induction 1 as [a|a m b p Hn Hc IH]; intros Ht fuel Hf.
  - destruct fuel; [cbn in Hf; lia|]. cbn [next_obs]. unfold terminal in Ht. unfold obs_at.
    destruct (nth_error g a) as [[e n|e t f|n| |]|]; try reflexivity. contradiction.
  - destruct fuel; [cbn in Hf; lia|]. cbn [next_obs]. rewrite Hn. apply IH; [exact Ht | cbn [length] in Hf; lia].
Qed.

Lemma chain_det g a b1 p1 : chain g a b1 p1 -> terminal g b1 ->
  forall b2 p2, chain g a b2 p2 -> terminal g b2 -> b1 = b2 /\ p1 = p2.
Proof.
  induction 1 as [a|a m b p Hn Hc IH]; intros Ht b2 p2 H2 Ht2.
  - inversion H2 as [|? m' ? p' Hn' Hc']; subst; [split; reflexivity|].
    unfold terminal in Ht. rewrite Hn' in Ht. contradiction.
  - inversion H2 as [|? m' ? p' Hn' Hc']; subst.
    + unfold terminal in Ht2. rewrite Hn in Ht2. contradiction.
    + rewrite Hn in Hn'. inversion Hn'; subst m'. destruct (IH Ht _ _ Hc' Ht2) as [E1 E2]. subst. split; reflexivity.
Qed.

Lemma chain_suffix g a b p : chain g a b p -> forall x, In x p ->
  exists p', chain g x b p' /\ length p' <= length p.
Proof.
  induction 1 as [a|a m b p Hn Hc IH]; intros x Hin; [contradiction|].
  destruct Hin as [<-|Hin].
  - exists (a :: p). split; [econstructor; eassumption | lia].
  - destruct (IH x Hin) as [p' [Hc' Hl]]. exists p'. split; [exact Hc' | cbn [length]; lia].
Qed.

Lemma chain_nodup g a b p : chain g a b p -> terminal g b -> NoDup p.
Proof.
  induction 1 as [a|a m b p Hn Hc IH]; intro Ht; [constructor|].
  constructor; [|apply IH; exact Ht].
  intro Hin. destruct (chain_suffix _ _ _ _ Hc a Hin) as [p' [Hc' Hl]].
  assert (Hfull : chain g a b (a :: p)) by (econstructor; eassumption).
  destruct (chain_det _ _ _ _ Hfull Ht _ _ Hc' Ht) as [_ E]. subst p'. cbn [length] in Hl. lia.
Qed.

Lemma chain_range g a b p : chain g a b p -> forall x, In x p -> x < length g.
Proof.
  induction 1 as [a|a m b p Hn Hc IH]; intros x Hin; [contradiction|].
  destruct Hin as [<-|Hin]; [|apply IH; exact Hin].
  apply nth_error_Some. congruence.
Qed.

(* a terminating chain of silent moves fits into the fuel of [observe] *)
Theorem observe_chain g a b p : chain g a b p -> terminal g b -> observe g a = obs_at g b.
Proof.
  intros Hc Ht. unfold observe. apply (next_obs_chain _ _ _ _ Hc Ht).
  assert (length p <= length (seq 0 (length g))).
  { apply NoDup_incl_length; [apply (chain_nodup _ _ _ _ Hc Ht)|].
    intros x Hx. apply in_seq. pose proof (chain_range _ _ _ _ Hc x Hx). lia. }
  rewrite seq_length in H. lia.
Qed.

Definition reaches (g : cfg) (a : nat) (o : obs) : Prop :=
  exists b p, chain g a b p /\ terminal g b /\ obs_at g b = o.

Lemma observe_reaches g a o : reaches g a o -> observe g a = o.
Proof. intros (b & p & Hc & Ht & Ho). rewrite (observe_chain _ _ _ _ Hc Ht). exact Ho. Qed.

Lemma reaches_goto g a m o : nth_error g a = Some (NGoto m) -> reaches g m o -> reaches g a o.
Proof. intros Hn (b & p & Hc & Ht & Ho). exists b, (a :: p). split; [econstructor; eassumption | split; assumption]. Qed.

Lemma reaches_here g a : terminal g a -> reaches g a (obs_at g a).
Proof. intro Ht. exists a, []. split; [constructor | split; [exact Ht | reflexivity]]. Qed.

(* Simulation up to silent moves: a relation whose related nodes reach matching observations with related
   successors is contained in behavioural equivalence. *)
Definition matches (R : nat -> nat -> Prop) (o1 o2 : obs) : Prop :=
  match o1, o2 with
  | OStop, OStop => True
  | OEv e1 a, OEv e2 b => e1 = e2 /\ R a b
  | OTst e1 t1 f1, OTst e2 t2 f2 => e1 = e2 /\ R t1 t2 /\ R f1 f2
  | _, _ => False
  end.

Theorem simulation_beh_eq g1 g2 (R : nat -> nat -> Prop) :
  (forall a b, R a b -> exists o1 o2, reaches g1 a o1 /\ reaches g2 b o2 /\ matches R o1 o2) ->
  forall a b, R a b -> beh_eq g1 g2 a b.
Proof.
  intros Hsim a b HR k. apply (closed_set_beh g1 g2 (fun p => R (fst p) (snd p))); [|exact HR].
  intros [x y] Hxy. cbn [fst snd] in *.
  destruct (Hsim x y Hxy) as (o1 & o2 & H1 & H2 & Hm).
  rewrite (observe_reaches _ _ _ H1), (observe_reaches _ _ _ H2).
  destruct o1 as [| | |e1 a1|e1 t1 f1], o2 as [| | |e2 b2|e2 t2 f2]; cbn [matches] in Hm; try contradiction.
  - exists []. split; [reflexivity | intros q []].
  - destruct Hm as [-> HR']. exists [(a1, b2)]. split.
    + cbn [succs]. assert (E : event_eqb e2 e2 = true) by (apply event_eqb_spec; reflexivity). rewrite E. reflexivity.
    + intros q [<-|[]]. exact HR'.
  - destruct Hm as [-> [Ht Hf]]. exists [(t1, t2); (f1, f2)]. split.
    + cbn [succs]. assert (E : event_eqb e2 e2 = true) by (apply event_eqb_spec; reflexivity). rewrite E. reflexivity.
    + intros q [<-|[<-|[]]]; assumption.
Qed.

(* what [observe] answers, if it is not "out of fuel", is reached by silent moves *)
Lemma next_obs_reaches g : forall fuel a o, next_obs fuel g a = o -> o <> OFuel -> reaches g a o.
Proof.
  induction fuel as [|fuel IH]; intros a o H Hne; cbn [next_obs] in H; [congruence|].
  destruct (nth_error g a) as [nd|] eqn:E.
  - destruct nd as [e n|e tt ff|n| |].
    + subst o. pose proof (reaches_here g a) as Hr. unfold terminal, obs_at in Hr. rewrite E in Hr. apply Hr. exact I.
    + subst o. pose proof (reaches_here g a) as Hr. unfold terminal, obs_at in Hr. rewrite E in Hr. apply Hr. exact I.
    + apply (reaches_goto g a n o E). apply (IH n o H Hne).
    + subst o. pose proof (reaches_here g a) as Hr. unfold terminal, obs_at in Hr. rewrite E in Hr. apply Hr. exact I.
    + subst o. pose proof (reaches_here g a) as Hr. unfold terminal, obs_at in Hr. rewrite E in Hr. apply Hr. exact I.
  - subst o. pose proof (reaches_here g a) as Hr. unfold terminal, obs_at in Hr. rewrite E in Hr. apply Hr. exact I.
Qed.

Lemma no_silent_cycle_reaches g : silent_cycle g = false -> forall a, a < length g -> exists o, reaches g a o.
Proof.
  unfold silent_cycle. intros H a Ha.
  assert (Hn : observe g a <> OFuel).
  { intro E. assert (existsb (fun n => match observe g n with OFuel => true | _ => false end) (seq 0 (length g)) = true).
    { apply existsb_exists. exists a. split; [apply in_seq; lia | rewrite E; reflexivity]. }
    congruence. }
  exists (observe g a). apply (next_obs_reaches g _ a _ eq_refl Hn).
Qed.
