(* The SSB machine model of the properties: ops run in order; Jump always goes; a branch, case or
   call op goes to its target exactly when taken; flow-ending ops stop; running past the last op of
   a routine stops.  Given as a translation of a routine set into a [cfg]. *)
From ES Require Import Base Ssb.Param Ssb.Cfg Ssb.Tables.

Record op := mkOp { off : Z; code : string; params : list param }.
Definition routine := list op.
Definition program := list routine.

Definition jump_index (c : string) : option nat := assoc_string c jump_table.
Definition ends_flow (c : string) : bool := mem_string c flow_end_ops.
Definition is_ctx (c : string) : bool := mem_string c ctx_ops.
Definition is_jump (c : string) : bool := String.eqb c OP_JUMP.

Definition all_ops (P : program) : list op := concat P.

(* global index of the first op with the given offset *)
Fixpoint find_off (z : Z) (l : list op) (i : nat) : option nat :=
  match l with
  | [] => None
  | o :: r => if Z.eqb (off o) z then Some i else find_off z r (S i)
  end.

Fixpoint remove_nth {A} (n : nat) (l : list A) : list A :=
  match l, n with
  | [], _ => []
  | _ :: r, O => r
  | x :: r, S n' => x :: remove_nth n' r
  end.

(* Node for one op.  [nxt] = where control continues, [prev_ctx] = the op before it in list order is
   a context op (then it can not end the flow).  [stopn] = the stop node. *)
Definition node_of_op (all : list op) (stopn : nat) (o : op) (nxt : nat) (prev_ctx : bool) : node :=
  match jump_index (code o) with
  | Some idx =>
      match nth_error (params o) idx with
      | Some (PInt z) =>
          match find_off z all 0 with
          | Some t =>
              if is_jump (code o) then NGoto t
              else NTest (code o, remove_nth idx (params o)) t nxt
          | None => NStuck
          end
      | _ => NStuck
      end
  | None =>
      if ends_flow (code o) && negb prev_ctx then NOp (code o, params o) stopn
      else NOp (code o, params o) nxt
  end.

(* [fall] = the node reached by running past the last op of a routine *)
Fixpoint nodes_of_routine (all : list op) (fall stopn : nat) (r : routine) (g : nat) (prev_ctx : bool) : list node :=
  match r with
  | [] => []
  | o :: rest =>
      let nxt := match rest with [] => fall | _ => S g end in
      node_of_op all stopn o nxt prev_ctx :: nodes_of_routine all fall stopn rest (S g) (is_ctx (code o))
  end.

Fixpoint nodes_of_program (all : list op) (fall stopn : nat) (P : program) (g : nat) : list node :=
  match P with
  | [] => []
  | r :: rest => nodes_of_routine all fall stopn r g false ++ nodes_of_program all fall stopn rest (g + length r)
  end.

(* Running off the end of a routine stops it "like return": it is the event Return followed by
   stop.  Node [n] (n = number of ops) is that implicit return, node [n+1] the stop node. *)
Definition implicit_return (stopn : nat) : node := NOp (OP_RETURN, []) stopn.

Definition cfg_of_ssb (P : program) : cfg :=
  let all := all_ops P in
  let n := length all in
  nodes_of_program all n (S n) P 0 ++ [implicit_return (S n); NStop].

(* entry node of every routine; an empty (alias) routine has none *)
Fixpoint entries_of (P : program) (g : nat) : list (option nat) :=
  match P with
  | [] => []
  | r :: rest => (match r with [] => None | _ => Some g end) :: entries_of rest (g + length r)
  end.
Definition ssb_entries (P : program) : list (option nat) := entries_of P 0.
