(* Source maps: value-level model of SourceMap.serialize / deserialize (through the JSON value shape
   json.dumps / json.loads produce for these tables) and of SourceMap.rewrite_offsets.  Model file. *)
From ES Require Import Base Text.Dec.

Inductive json :=
| JNull
| JInt (z : Z)
| JStr (s : text)
| JArr (l : list json)
| JObj (l : list (string * json)).

Record posmark := mkPM {
  pm_line : Z; pm_col : Z; pm_eline : Z; pm_ecol : Z; pm_name : text;
  pm_xo : Z; pm_yo : Z; pm_xr : Z; pm_yr : Z }.

Record mapping := mkMap { m_line : Z; m_col : Z }.

Inductive pval := PVInt (z : Z) | PVStr (s : text).

Record mmapping := mkMM {
  mm_file : option text;
  mm_macro : text;
  mm_line : Z;
  mm_col : Z;
  mm_called : option (option text * Z * Z);     (* a tuple in Python *)
  mm_ret : option Z;
  mm_params : list (string * pval) }.

Record smap := mkSM {
  s_map : list (Z * mapping);
  s_marks : list posmark;
  s_mmap : list (Z * mmapping);
  s_mmarks : list (option text * text * posmark) }.

(* ---- serialize ---- *)
Definition j_otext (o : option text) : json := match o with None => JNull | Some t => JStr t end.

Definition ser_posmark (p : posmark) : json :=
  JArr [JInt (pm_line p); JInt (pm_col p); JInt (pm_eline p); JInt (pm_ecol p); JStr (pm_name p);
        JInt (pm_xo p); JInt (pm_yo p); JInt (pm_xr p); JInt (pm_yr p)].

Definition ser_mapping (m : mapping) : json := JArr [JInt (m_line m); JInt (m_col m)].

Definition ser_pval (v : pval) : json := match v with PVInt z => JInt z | PVStr s => JStr s end.

Definition ser_called (c : option (option text * Z * Z)) : json :=
  match c with
  | None => JNull
  | Some (f, l, k) => JArr [j_otext f; JInt l; JInt k]
  end.

Definition ser_mmapping (m : mmapping) : json :=
  JArr [j_otext (mm_file m); JStr (mm_macro m); JInt (mm_line m); JInt (mm_col m); ser_called (mm_called m);
        (match mm_ret m with None => JNull | Some r => JInt r end);
        JObj (map (fun kv => (fst kv, ser_pval (snd kv))) (mm_params m))].

Definition ser_keyed {A} (f : A -> json) (l : list (Z * A)) : json :=
  JObj (map (fun kv => (print_Z (fst kv), f (snd kv))) l).

Definition serialize (m : smap) : json :=
  JObj [("map"%string, ser_keyed ser_mapping (s_map m));
        ("pos_marks"%string, JArr (map ser_posmark (s_marks m)));
        ("macros"%string,
          JObj [("map"%string, ser_keyed ser_mmapping (s_mmap m));
                ("pos_marks"%string,
                  JArr (map (fun y => JArr [j_otext (fst (fst y)); JStr (snd (fst y)); ser_posmark (snd y)])
                            (s_mmarks m)))])].

(* ---- deserialize ---- *)
Fixpoint mapM {A B} (f : A -> option B) (l : list A) : option (list B) :=
  match l with
  | [] => Some []
  | x :: r => match f x, mapM f r with Some y, Some ys => Some (y :: ys) | _, _ => None end
  end.

Definition d_int (j : json) : option Z := match j with JInt z => Some z | _ => None end.
Definition d_str (j : json) : option text := match j with JStr s => Some s | _ => None end.
Definition d_otext (j : json) : option (option text) :=
  match j with JNull => Some None | JStr s => Some (Some s) | _ => None end.

Definition de_posmark (j : json) : option posmark :=
  match j with
  | JArr [JInt a; JInt b; JInt c; JInt d; JStr n; JInt e; JInt f; JInt g; JInt h] => Some (mkPM a b c d n e f g h)
  | _ => None
  end.

Definition de_mapping (j : json) : option mapping :=
  match j with JArr [JInt a; JInt b] => Some (mkMap a b) | _ => None end.

Definition de_pval (j : json) : option pval :=
  match j with JInt z => Some (PVInt z) | JStr s => Some (PVStr s) | _ => None end.

Definition de_called (j : json) : option (option (option text * Z * Z)) :=
  match j with
  | JNull => Some None
  | JArr [f; JInt l; JInt k] => match d_otext f with Some f' => Some (Some (f', l, k)) | None => None end
  | _ => None
  end.

Definition de_params (j : json) : option (list (string * pval)) :=
  match j with
  | JObj l => mapM (fun kv => match de_pval (snd kv) with Some v => Some (fst kv, v) | None => None end) l
  | _ => None
  end.

Definition de_mmapping (j : json) : option mmapping :=
  match j with
  | JArr [f; JStr mn; JInt l; JInt c; ci; r; ps] =>
      match d_otext f, de_called ci,
            (match r with JNull => Some None | JInt z => Some (Some z) | _ => None end), de_params ps with
      | Some f', Some ci', Some r', Some ps' => Some (mkMM f' mn l c ci' r' ps')
      | _, _, _, _ => None
      end
  | _ => None
  end.

Definition de_keyed {A} (f : json -> option A) (j : json) : option (list (Z * A)) :=
  match j with
  | JObj l => mapM (fun kv => match parse_Z (fst kv), f (snd kv) with
                              | Some k, Some v => Some (k, v)
                              | _, _ => None
                              end) l
  | _ => None
  end.

Definition de_mmark (j : json) : option (option text * text * posmark) :=
  match j with
  | JArr [f; JStr mn; p] =>
      match d_otext f, de_posmark p with Some f', Some p' => Some (f', mn, p') | _, _ => None end
  | _ => None
  end.

Definition deserialize (j : json) : option smap :=
  match j with
  | JObj [(_, mp); (_, JArr pms); (_, JObj [(_, mmp); (_, JArr mpms)])] =>
      match de_keyed de_mapping mp, mapM de_posmark pms, de_keyed de_mmapping mmp, mapM de_mmark mpms with
      | Some a, Some b, Some c, Some d => Some (mkSM a b c d)
      | _, _, _, _ => None
      end
  | _ => None
  end.

(* ---- rewrite_offsets ---- *)
Fixpoint lookupZ (k : Z) (f : list (Z * Z)) : option Z :=
  match f with [] => None | (a, b) :: r => if Z.eqb a k then Some b else lookupZ k r end.

Definition rewrite_keys {A} (f : list (Z * Z)) (l : list (Z * A)) : list (Z * A) :=
  flat_map (fun kv => match lookupZ (fst kv) f with Some k' => [(k', snd kv)] | None => [] end) l.

Fixpoint find_next (f : list (Z * Z)) (addr : Z) (fuel : nat) : option Z :=
  match lookupZ addr f with
  | Some n => Some n
  | None => match fuel with O => None | S k => find_next f (addr + 1) k end
  end.

Definition max_key (f : list (Z * Z)) : Z := fold_right (fun kv m => Z.max (fst kv) m) (-1)%Z f.

Definition rewrite_ret (f : list (Z * Z)) (r : option Z) : option Z :=
  match r with
  | None => None
  | Some a => match find_next f a (Z.to_nat (max_key f - a)) with Some n => Some n | None => Some a end
  end.

Definition rewrite_mm (f : list (Z * Z)) (m : mmapping) : mmapping :=
  mkMM (mm_file m) (mm_macro m) (mm_line m) (mm_col m) (mm_called m) (rewrite_ret f (mm_ret m)) (mm_params m).

Definition rewrite_offsets (f : list (Z * Z)) (m : smap) : smap :=
  match f with
  | [] => mkSM [] (s_marks m) [] (s_mmarks m)
  | _ => mkSM (rewrite_keys f (s_map m)) (s_marks m)
              (map (fun kv => (fst kv, rewrite_mm f (snd kv))) (rewrite_keys f (s_mmap m))) (s_mmarks m)
  end.
