(* C14: round trip through the serialised form; offset rewriting. *)
From ES Require Import Base Text.Dec SM.Model.

Lemma mapM_map {A B} (g : A -> B) (f : B -> option A) (l : list A) :
  (forall x, f (g x) = Some x) -> mapM f (map g l) = Some l.
Proof. intro H. induction l as [|x r IH]; simpl; [reflexivity|]. rewrite H, IH. reflexivity. Qed.

Lemma d_otext_j o : d_otext (j_otext o) = Some o.
Proof. destruct o; reflexivity. Qed.

Lemma de_ser_posmark p : de_posmark (ser_posmark p) = Some p.
Proof. destruct p; reflexivity. Qed.

Lemma de_ser_mapping m : de_mapping (ser_mapping m) = Some m.
Proof. destruct m; reflexivity. Qed.

Lemma de_ser_pval v : de_pval (ser_pval v) = Some v.
Proof. destruct v; reflexivity. Qed.

Lemma de_ser_called c : de_called (ser_called c) = Some c.
Proof. destruct c as [[[f l] k]|]; simpl; [rewrite d_otext_j|]; reflexivity. Qed.

Lemma de_ser_params ps :
  de_params (JObj (map (fun kv => (fst kv, ser_pval (snd kv))) ps)) = Some ps.
Proof.
  simpl. apply (mapM_map (fun kv : string * pval => (fst kv, ser_pval (snd kv)))).
  intros [k v]; simpl. rewrite de_ser_pval. reflexivity.
Qed.

Lemma de_ser_mmapping m : de_mmapping (ser_mmapping m) = Some m.
Proof.
  destruct m as [f mn l c ci r ps]. unfold ser_mmapping, de_mmapping; simpl mm_file; simpl mm_macro;
    simpl mm_line; simpl mm_col; simpl mm_called; simpl mm_ret; simpl mm_params.
  rewrite d_otext_j, de_ser_called, de_ser_params. destruct r; reflexivity.
Qed.

Lemma de_ser_keyed {A} (ser : A -> json) (de : json -> option A) l :
  (forall x, de (ser x) = Some x) -> de_keyed de (ser_keyed ser l) = Some l.
Proof.
  intro H. unfold de_keyed, ser_keyed.
  apply (mapM_map (fun kv : Z * A => (print_Z (fst kv), ser (snd kv)))).
  intros [k v]; simpl. rewrite parse_print_Z, H. reflexivity.
Qed.

Lemma de_ser_mmark y :
  de_mmark (JArr [j_otext (fst (fst y)); JStr (snd (fst y)); ser_posmark (snd y)]) = Some y.
Proof. destruct y as [[f mn] p]. unfold de_mmark. cbn [fst snd]. rewrite d_otext_j, de_ser_posmark. reflexivity. Qed.

(* reading back what was written gives the same map: op entries, macro entries (file, macro, position,
   call site as a tuple, return address, parameter mapping) and position marks *)
Theorem deserialize_serialize m : deserialize (serialize m) = Some m.
Proof.
  destruct m as [a b c d]. unfold serialize, deserialize; simpl s_map; simpl s_marks; simpl s_mmap; simpl s_mmarks.
  rewrite (de_ser_keyed ser_mapping de_mapping a de_ser_mapping).
  rewrite (mapM_map ser_posmark de_posmark b de_ser_posmark).
  rewrite (de_ser_keyed ser_mmapping de_mmapping c de_ser_mmapping).
  rewrite (mapM_map _ de_mmark d de_ser_mmark). reflexivity.
Qed.

(* serialising again gives the same text *)
Corollary reserialize m m' : deserialize (serialize m) = Some m' -> serialize m' = serialize m.
Proof. rewrite deserialize_serialize. intro H; inversion H; reflexivity. Qed.

(* ---- rewrite_offsets ---- *)
Lemma rewrite_keys_In {A} f (l : list (Z * A)) k' v :
  In (k', v) (rewrite_keys f l) <-> exists k, In (k, v) l /\ lookupZ k f = Some k'.
Proof.
  unfold rewrite_keys. rewrite in_flat_map. split.
  - intros [[k v0] [Hin H]]. simpl in H. destruct (lookupZ k f) as [n|] eqn:E; [|destruct H].
    destruct H as [H|[]]. inversion H; subst. exists k. split; assumption.
  - intros [k [Hin E]]. exists (k, v). split; [exact Hin|]. simpl. rewrite E. left; reflexivity.
Qed.

(* every entry moves to the new offset of the same op; only entries whose op is absent from the
   mapping disappear; nothing else appears *)
Theorem rewrite_op_entries f m k' v : f <> [] ->
  (In (k', v) (s_map (rewrite_offsets f m)) <-> exists k, In (k, v) (s_map m) /\ lookupZ k f = Some k').
Proof. intro Hf. destruct f; [congruence|]. simpl. apply rewrite_keys_In. Qed.

Theorem rewrite_macro_entries f m k' v' : f <> [] ->
  (In (k', v') (s_mmap (rewrite_offsets f m)) <->
   exists k v, In (k, v) (s_mmap m) /\ lookupZ k f = Some k' /\ v' = rewrite_mm f v).
Proof.
  intro Hf. destruct f as [|p f']; [congruence|]. simpl s_mmap. rewrite in_map_iff. split.
  - intros [[k0 v0] [E Hin]]. simpl in E. inversion E; subst. apply rewrite_keys_In in Hin.
    destruct Hin as [k [Hin Hl]]. exists k, v0. repeat split; assumption.
  - intros [k [v [Hin [Hl E]]]]. subst v'. exists (k', v). split; [reflexivity|].
    apply rewrite_keys_In. exists k. split; assumption.
Qed.

Theorem rewrite_keeps_marks f m :
  s_marks (rewrite_offsets f m) = s_marks m /\ s_mmarks (rewrite_offsets f m) = s_mmarks m.
Proof. destruct f; split; reflexivity. Qed.

(* macro entries keep everything but the return address *)
Theorem rewrite_mm_fields f v :
  mm_file (rewrite_mm f v) = mm_file v /\ mm_macro (rewrite_mm f v) = mm_macro v /\
  mm_line (rewrite_mm f v) = mm_line v /\ mm_col (rewrite_mm f v) = mm_col v /\
  mm_called (rewrite_mm f v) = mm_called v /\ mm_params (rewrite_mm f v) = mm_params v.
Proof. repeat split. Qed.

(* the return address goes to the new offset of its op ... *)
Theorem rewrite_ret_present f a n : lookupZ a f = Some n -> rewrite_ret f (Some a) = Some n.
Proof. intro H. unfold rewrite_ret. destruct (Z.to_nat (max_key f - a)); simpl; rewrite H; reflexivity. Qed.

(* ... or, when that op was dropped, to the new offset of the next surviving op (in old numbering) *)
Lemma find_next_spec f : forall fuel a n,
  find_next f a fuel = Some n ->
  exists j, (j <= fuel)%nat /\ lookupZ (a + Z.of_nat j) f = Some n /\
            forall i, (i < j)%nat -> lookupZ (a + Z.of_nat i) f = None.
Proof.
  induction fuel as [|k IH]; intros a n H; simpl in H.
  - destruct (lookupZ a f) eqn:E; [|discriminate]. inversion H; subst. exists 0%nat.
    rewrite Z.add_0_r. repeat split; [lia | exact E | intros; lia].
  - destruct (lookupZ a f) eqn:E.
    + inversion H; subst. exists 0%nat. rewrite Z.add_0_r. repeat split; [lia | exact E | intros; lia].
    + destruct (IH _ _ H) as [j [Hj [Hl Hn]]]. exists (S j). repeat split; [lia | |].
      * replace (a + Z.of_nat (S j))%Z with (a + 1 + Z.of_nat j)%Z by lia. exact Hl.
      * intros i Hi. destruct i as [|i]; [rewrite Z.add_0_r; exact E|].
        replace (a + Z.of_nat (S i))%Z with (a + 1 + Z.of_nat i)%Z by lia. apply Hn. lia.
Qed.

Lemma find_next_none f : forall fuel a,
  find_next f a fuel = None -> forall i, (i <= fuel)%nat -> lookupZ (a + Z.of_nat i) f = None.
Proof.
  induction fuel as [|k IH]; intros a H i Hi; simpl in H.
  - destruct (lookupZ a f) eqn:E; [discriminate|]. assert (i = 0)%nat by lia. subst. rewrite Z.add_0_r. exact E.
  - destruct (lookupZ a f) eqn:E; [discriminate|]. destruct i as [|i]; [rewrite Z.add_0_r; exact E|].
    replace (a + Z.of_nat (S i))%Z with (a + 1 + Z.of_nat i)%Z by lia. apply IH; [exact H | lia].
Qed.

Theorem rewrite_ret_spec f a :
  match rewrite_ret f (Some a) with
  | Some r' =>
      (exists j, lookupZ (a + Z.of_nat j) f = Some r' /\ forall i, (i < j)%nat -> lookupZ (a + Z.of_nat i) f = None)
      \/ (r' = a /\ forall b, (a <= b <= max_key f)%Z -> lookupZ b f = None)
  | None => False
  end.
Proof.
  unfold rewrite_ret. destruct (find_next f a (Z.to_nat (max_key f - a))) as [n|] eqn:E.
  - left. destruct (find_next_spec _ _ _ _ E) as [j [_ [H1 H2]]]. exists j. split; assumption.
  - right. split; [reflexivity|]. intros b Hb.
    replace b with (a + Z.of_nat (Z.to_nat (b - a)))%Z by lia.
    eapply find_next_none; [exact E | lia].
Qed.

Lemma lookupZ_max f k n : lookupZ k f = Some n -> (k <= max_key f)%Z.
Proof.
  induction f as [|[a b] r IH]; simpl; [discriminate|]. destruct (Z.eqb a k) eqn:E.
  - apply Z.eqb_eq in E. subst. intros _. lia.
  - intro H. specialize (IH H). lia.
Qed.

(* non-vacuity: dropping ops 2 and 3, non-monotone mapping *)
Example rewrite_example :
  let f := [(1, 10); (4, 7); (5, 3)]%Z in
  let mm r := mkMM None [109%N] 0 0 None r [] in
  let m := mkSM [(1, mkMap 0 0); (2, mkMap 1 0); (4, mkMap 2 4)]%Z [] [(5, mm (Some 2)); (3, mm (Some 6))]%Z [] in
  rewrite_offsets f m =
  mkSM [(10, mkMap 0 0); (7, mkMap 2 4)]%Z [] [(3, mm (Some 7))]%Z [].
Proof. vm_compute. reflexivity. Qed.
