(* Common definitions: texts, decidable equalities, result monad. Stdlib only. *)
From Coq Require Export String Ascii.
From Coq Require Export ZArith NArith Bool Arith Lia List.
Export ListNotations.
Open Scope list_scope.

(* Python str contents: list of Unicode code points. *)
Definition text := list N.

Fixpoint list_eqb {A} (eqb : A -> A -> bool) (l1 l2 : list A) : bool :=
  match l1, l2 with
  | [], [] => true
  | x :: r1, y :: r2 => eqb x y && list_eqb eqb r1 r2
  | _, _ => false
  end.

Lemma list_eqb_spec {A} (eqb : A -> A -> bool) :
  (forall x y, eqb x y = true <-> x = y) ->
  forall l1 l2, list_eqb eqb l1 l2 = true <-> l1 = l2.
Proof.
  intros H l1. induction l1 as [|x r IH]; intros [|y r2]; simpl; split; intro E;
    try reflexivity; try discriminate.
  - apply andb_true_iff in E. destruct E as [E1 E2]. apply H in E1. apply IH in E2. congruence.
  - inversion E; subst. apply andb_true_iff. split; [apply H; reflexivity | apply IH; reflexivity].
Qed.

Definition text_eqb : text -> text -> bool := list_eqb N.eqb.
Lemma text_eqb_spec : forall a b, text_eqb a b = true <-> a = b.
Proof. apply list_eqb_spec. intros; apply N.eqb_eq. Qed.

Lemma string_eqb_spec : forall a b : string, String.eqb a b = true <-> a = b.
Proof. intros. apply String.eqb_eq. Qed.

Definition pair_eqb {A B} (ea : A -> A -> bool) (eb : B -> B -> bool) (p q : A * B) : bool :=
  ea (fst p) (fst q) && eb (snd p) (snd q).
Lemma pair_eqb_spec {A B} (ea : A -> A -> bool) (eb : B -> B -> bool) :
  (forall x y, ea x y = true <-> x = y) -> (forall x y, eb x y = true <-> x = y) ->
  forall p q, pair_eqb ea eb p q = true <-> p = q.
Proof.
  intros Ha Hb [a b] [c d]; unfold pair_eqb; simpl. rewrite andb_true_iff, Ha, Hb.
  split; [intros [? ?]; congruence | intro E; inversion E; auto].
Qed.

(* string (ASCII names) -> text *)
Fixpoint s2t (s : string) : text :=
  match s with
  | EmptyString => []
  | String c r => N_of_ascii c :: s2t r
  end.

Inductive result (A : Type) : Type :=
| Ok (a : A)
| Err (msg : string).
Arguments Ok {A} a.
Arguments Err {A} msg.

Definition bind {A B} (r : result A) (f : A -> result B) : result B :=
  match r with Ok a => f a | Err m => Err m end.
Notation "'do' x <- r ; k" := (bind r (fun x => k)) (at level 200, x pattern, r at level 100, k at level 200).

Definition mem_string (s : string) (l : list string) : bool := existsb (String.eqb s) l.
Lemma mem_string_In s l : mem_string s l = true <-> In s l.
Proof.
  unfold mem_string. rewrite existsb_exists. split.
  - intros [x [Hin E]]. apply String.eqb_eq in E. subst. exact Hin.
  - intro H. exists s. split; [exact H | apply String.eqb_refl].
Qed.

Fixpoint assoc_string {A} (s : string) (l : list (string * A)) : option A :=
  match l with
  | [] => None
  | (k, v) :: r => if String.eqb s k then Some v else assoc_string s r
  end.
