(* History independence (C11) and schedule independence (C12) as frame arguments.

   A process is a state; a call maps a state to a result and a new state.  What the code under
   /repo has to provide are the two frame conditions below; the harness checks them on the real
   process state after every call of every generated history (harness/audit.py):
     - reads_only_obs : the result of a call depends on the state only through [obs], the part of
       the process state calls read.  (The decompiler's memo table is not part of [obs]: entries are
       only read by the call that wrote them - checked by tagging every entry with the call that
       created it.)
     - restores_obs   : a call leaves [obs] as it was at start-up (no residue in module-level or
       class-level containers), whether it returns or raises.
   Under these conditions every call returns, after any history, what it returns as first call of
   a fresh process. *)
From ES Require Import Base.

Section Frame.
  Variables (call st out view : Type).
  Variable exec : call -> st -> out * st.
  Variable obs : st -> view.
  Variable s0 : st.

  Hypothesis reads_only_obs : forall c s s', obs s = obs s' -> fst (exec c s) = fst (exec c s').
  Hypothesis restores_obs : forall c s, obs s = obs s0 -> obs (snd (exec c s)) = obs s0.

  Definition run (h : list call) (s : st) : st := fold_left (fun s c => snd (exec c s)) h s.

  Lemma run_keeps_obs : forall h s, obs s = obs s0 -> obs (run h s) = obs s0.
  Proof.
    induction h as [|c h IH]; intros s H; [exact H|].
    cbn [run fold_left]. apply IH. apply restores_obs. exact H.
  Qed.

  (* the result of a call after any history = its result in a fresh process *)
  Theorem history_independent : forall h c, fst (exec c (run h s0)) = fst (exec c s0).
  Proof. intros h c. apply reads_only_obs. apply run_keeps_obs. reflexivity. Qed.

  (* all results of a history, call by call *)
  Fixpoint results (h : list call) (s : st) : list out :=
    match h with [] => [] | c :: r => fst (exec c s) :: results r (snd (exec c s)) end.

  Theorem results_pointwise : forall h s, obs s = obs s0 -> results h s = map (fun c => fst (exec c s0)) h.
  Proof.
    induction h as [|c h IH]; intros s H; [reflexivity|].
    cbn [results map]. f_equal; [apply reads_only_obs; exact H | apply IH; apply restores_obs; exact H].
  Qed.
End Frame.

(* ---- schedules: threads that only touch cells they own ---- *)
Section Schedules.
  (* the shared store is a map from cells to values; thread [t] owns the cells with [owner k = t]
     (for the decompiler: the memo entries keyed by the graphs this thread built).  A step of thread
     [t] is a function of the thread's local state and the store restricted to its own cells, and
     writes only its own cells. *)
  Variables (cell val loc : Type).
  Variable owner : cell -> nat.
  Definition store := cell -> val.
  Variable step : nat -> loc -> store -> loc * store.

  Definition agree_on (t : nat) (m m' : store) : Prop := forall k, owner k = t -> m k = m' k.

  Hypothesis step_reads_own : forall t l m m', agree_on t m m' ->
    fst (step t l m) = fst (step t l m') /\ agree_on t (snd (step t l m)) (snd (step t l m')).
  Hypothesis step_writes_own : forall t l m k, owner k <> t -> snd (step t l m) k = m k.

  (* thread-local states of all threads *)
  Definition locals := nat -> loc.
  Definition upd (ls : locals) (t : nat) (l : loc) : locals := fun u => if Nat.eqb u t then l else ls u.

  (* a schedule is the sequence of thread ids that take a step *)
  Fixpoint run_sched (sch : list nat) (ls : locals) (m : store) : locals * store :=
    match sch with
    | [] => (ls, m)
    | t :: r => let '(l', m') := step t (ls t) m in run_sched r (upd ls t l') m'
    end.

  (* thread [t] alone takes as many steps as it takes in the schedule *)
  Fixpoint run_alone (t : nat) (n : nat) (l : loc) (m : store) : loc * store :=
    match n with
    | O => (l, m)
    | S n' => let '(l', m') := step t l m in run_alone t n' l' m'
    end.

  Definition steps_of (t : nat) (sch : list nat) : nat := length (filter (Nat.eqb t) sch).

  Lemma run_alone_agree t n : forall l m m', agree_on t m m' ->
    fst (run_alone t n l m) = fst (run_alone t n l m') /\
    agree_on t (snd (run_alone t n l m)) (snd (run_alone t n l m')).
  Proof.
    induction n as [|n IH]; intros l m m' H; [split; [reflexivity | exact H]|].
    cbn [run_alone]. destruct (step_reads_own t l m m' H) as [E A].
    destruct (step t l m) as [l1 m1], (step t l m') as [l2 m2]. cbn [fst snd] in E, A. subst l2.
    apply IH. exact A.
  Qed.

  (* whatever the other threads do in between, a thread ends with the local state (its results)
     it reaches when it runs alone, and its own cells hold what they hold then *)
  Theorem schedule_independent : forall sch ls m t,
    fst (run_sched sch ls m) t = fst (run_alone t (steps_of t sch) (ls t) m) /\
    agree_on t (snd (run_sched sch ls m)) (snd (run_alone t (steps_of t sch) (ls t) m)).
  Proof.
    induction sch as [|u sch IH]; intros ls m t.
    - cbn. split; [reflexivity | intros k _; reflexivity].
    - unfold steps_of in *. cbn [run_sched filter]. destruct (Nat.eqb t u) eqn:E.
      + apply Nat.eqb_eq in E. subst u. cbn [length run_alone].
        destruct (step t (ls t) m) as [l' m'] eqn:S.
        specialize (IH (upd ls t l') m' t). unfold upd in IH at 2 4. rewrite Nat.eqb_refl in IH. exact IH.
      + apply Nat.eqb_neq in E.
        destruct (step u (ls u) m) as [l' m'] eqn:S.
        specialize (IH (upd ls u l') m' t).
        assert (Hl : upd ls u l' t = ls t) by (unfold upd; destruct (Nat.eqb t u) eqn:E2; [apply Nat.eqb_eq in E2; congruence | reflexivity]).
        rewrite Hl in IH. destruct IH as [IH1 IH2].
        assert (A : agree_on t m' m).
        { intros k Hk. replace m' with (snd (step u (ls u) m)) by (rewrite S; reflexivity).
          apply step_writes_own. congruence. }
        destruct (run_alone_agree t (length (filter (Nat.eqb t) sch)) (ls t) m' m A) as [R1 R2].
        split.
        * rewrite IH1. exact R1.
        * intros k Hk. rewrite (IH2 k Hk). apply R2. exact Hk.
  Qed.
End Schedules.
